"""
bounded.frames -- enumerated single-column frames over every column family of
C01's quantifier, with boundary-rich value pools.
"""
import datetime
import itertools
import math
import random

import numpy as np
import pandas as pd

D = datetime.datetime
T0 = D(2020, 1, 1)
T1 = D(1999, 12, 31, 23, 59, 59)
T2 = D(2021, 6, 15, 12, 30, 0, 123456)
T3 = D(1970, 1, 1)

POOLS = {
    'int64': [0, 1, -1, 7],
    'int8': [0, 1, -1, 100],
    # integers that are not exactly representable as doubles (beyond 2**53)
    'int64big': [2 ** 53 + 5, 2 ** 62 + 1, 2 ** 63 - 3, -(2 ** 53) - 7],
    'uint64': [2 ** 64 - 2, 2 ** 53 + 1, 3],
    'uint8': [0, 1, 3, 200],
    'Int64': [0, 1, -1, 7],
    'float64': [0.0, 1.5, -2.25, 3.0],
    'float64x': [float('inf'), float('-inf'), 1e300, -1.7976931348623157e308, 5e-324, 0.1],
    'bool': [True, False],
    'boolobj': [True, False],
    'boolean': [True, False],
    'object-str': ['', 'a', 'ab', 'é£'],
    'object-strnan': ['', 'a', 'ab'],
    'category-int': [1, 2, 30],
    'object-strx': ["a'b", 'a b', 'A1', '\\d', '^-', 'x\ny', '١٢', 'x²', 'a"b'],
    'category': ['a', 'bb', ''],
    'string': ['a', 'bb', ''],
    'datetime64[ns]': [T0, T1, T2],
    'datetime64[us]': [T0, T2],
    'datetime64[ms]': [T0, T1],
    'datetime64[s]': [T0, T1],
    'datetime-tz': [T0, T1],
    'dateobj': [datetime.date(2020, 1, 1), datetime.date(1999, 12, 31)],
}
NULLABLE = {'Int64', 'float64', 'float64x', 'boolobj', 'boolean', 'object-str', 'object-strnan',
            'object-strx', 'category', 'string', 'datetime64[ns]', 'datetime64[us]',
            'datetime64[ms]', 'datetime64[s]', 'datetime-tz', 'dateobj'}
EXPECTED_TTYPE = {
    'int64': 'int', 'int8': 'int', 'uint8': 'int', 'Int64': 'int', 'int64big': 'int', 'uint64': 'int',
    'float64': 'real', 'float64x': 'real', 'bool': 'bool', 'boolobj': 'bool',
    'boolean': 'bool', 'category-int': 'string', 'object-str': 'string', 'object-strx': 'string', 'object-strnan': 'string',
    'category': 'string', 'string': 'string', 'datetime64[ns]': 'date',
    'datetime64[us]': 'date', 'datetime64[ms]': 'date', 'datetime64[s]': 'date',
    'datetime-tz': 'date', 'dateobj': 'date',
}


def make_series(family, values):
    vals = list(values)
    if family in ('int64', 'int8', 'uint8', 'uint64'):
        return pd.Series(vals, dtype=family)
    if family == 'int64big':
        return pd.Series(vals, dtype='int64')
    if family == 'Int64':
        return pd.Series([pd.NA if v is None else v for v in vals], dtype='Int64')
    if family in ('float64', 'float64x'):
        return pd.Series([np.nan if v is None else v for v in vals], dtype='float64')
    if family == 'bool':
        return pd.Series(vals, dtype='bool')
    if family == 'boolobj':
        return pd.Series(vals, dtype=object)
    if family == 'boolean':
        return pd.Series([pd.NA if v is None else v for v in vals], dtype='boolean')
    if family in ('object-str', 'object-strx'):
        return pd.Series(vals, dtype=object)
    if family == 'object-strnan':
        # nulls are fresh float NaN objects, not None and not the numpy singleton
        return pd.Series([float('nan') if v is None else v for v in vals], dtype=object)
    if family == 'category-int':
        return pd.Series(pd.Categorical(vals))
    if family == 'category':
        # the declared labels are wider than the data (as after a row filter): a label no record uses is not a value
        used = sorted(set(v for v in vals if v is not None))
        return pd.Series(pd.Categorical(vals, categories=used + ['zz-unused-label']))
    if family == 'string':
        return pd.Series(vals, dtype='string')
    if family.startswith('datetime64'):
        return pd.Series([pd.NaT if v is None else v for v in vals], dtype=family)
    if family == 'datetime-tz':
        return pd.Series(pd.to_datetime([pd.NaT if v is None else v for v in vals], utc=True))
    if family == 'dateobj':
        return pd.Series(vals, dtype=object)
    raise KeyError(family)


def make_frame(family, values, name='c'):
    return pd.DataFrame({name: make_series(family, values)})


def norm(v):
    """Python-native view of a cell (None for every kind of null)."""
    if v is None or v is pd.NA or v is pd.NaT:
        return None
    if isinstance(v, (float, np.floating)) and math.isnan(v):
        return None
    if isinstance(v, np.bool_):
        return bool(v)
    if isinstance(v, np.integer):
        return int(v)
    if isinstance(v, np.floating):
        return float(v)
    if isinstance(v, np.datetime64):
        return pd.Timestamp(v)
    return v


def cases(family, max_rows, pool=None, with_null=None):
    pool = list(POOLS[family] if pool is None else pool)
    if with_null is None:
        with_null = family in NULLABLE
    alphabet = pool + ([None] if with_null else [])
    for n in range(0, max_rows + 1):
        for combo in itertools.product(alphabet, repeat=n):
            yield combo


def random_cases(family, n, rows, seed):
    rnd = random.Random('%s-%s' % (family, seed))
    pool = list(POOLS[family])
    if family in NULLABLE:
        pool = pool + [None]
    for _ in range(n):
        k = rnd.randint(rows[0], rows[1])
        yield tuple(rnd.choice(pool) for _ in range(k))


FAMILIES_QUICK = ['int64', 'int64big', 'uint64', 'uint8', 'Int64', 'float64', 'float64x', 'bool', 'boolobj', 'boolean',
                  'object-str', 'object-strnan', 'object-strx', 'category', 'datetime64[ns]',
                  'datetime64[us]', 'datetime64[s]', 'datetime-tz', 'dateobj']
# the pandas 'string' extension dtype is not among the column types of C01's
# quantifier (object-dtype strings and categoricals are); it is exercised by C05
FAMILIES_ALL = [f for f in POOLS if f not in ('string', 'category-int')]     # category-int: asked for explicitly by C01 only (recorded finding)


def expected_ttype(family, values):
    # an object column with no non-null value cannot be told apart: tdda says 'string'
    if family in ('boolobj', 'dateobj') and all(v is None for v in values):
        return 'string'
    return EXPECTED_TTYPE[family]
